"""C15 -- the planner's obstruction test equals exact closed-segment versus closed-box intersection.

Code under test: RRTStar.obstruction(node_a, node_b) (a separating-axis test: three box axes, three
cross-product axes) over the obstructions registered with RRTStar.addObstruction(L, R), which stores
[tm(min corner), tm(max corner)].  Nodes are PathNode(tm([x, y, z, rx, ry, rz])); only the position enters.

Oracle: Liang-Barsky slab clipping -- a different algorithm -- in exact arithmetic:
  * `lb_fraction`   sequential clipping of the parameter interval [0, 1] in fractions.Fraction (slow, the reference);
  * `lb_lattice_vec` the same decision written as pairwise comparisons of entry/exit parameters, cross-multiplied
    in int64 (vectorised over all 117 649 lattice segments of one box).  The two are cross-checked against each
    other on a seeded sample at the start of every enumeration shard (disagreement = harness error, exit 2).
Nothing about the code under test is assumed for the enumeration: every ordered pair of end points and every
box is evaluated by a separate library call on a planner that was set up through the public API only (one
RRTStar + one addObstruction per box); no symmetry reduction.
"""
import os
import sys
from fractions import Fraction

import numpy as np
from hypothesis import strategies as st

from vf import gen as G
from vf.core import Clause, HarnessError, Violation, sut

PROPERTY_ID = "C15"
RULE = ("lattice_enumeration: all ordered segments with end points in {-3..3}^3 (117 649) x all boxes with integer "
        "corners lo<=hi in {-2..2}^3 (3 375, degenerate boxes included) = 397 065 375 pairs; thorough tier evaluates "
        "every pair (exhaustive), quick tier a seeded stratified sample: for every box, 2 segments from every non-empty "
        "(direction sign pattern (27) x contact class (7)) stratum. float_pairs / box_sets: Hypothesis cases with mass on "
        "faces, edges, corners, near misses/hits 1e-8..1e-2 off the boundary, thin and degenerate boxes, sets of 0..6 "
        "boxes. Non-trivial: the segment is not entirely on one side of a slab (the three cheap rejections do not decide "
        "it), or it touches the box only in its boundary, or it has zero length; enumeration cases are distinct by "
        "construction, Hypothesis cases by digest.")
ASSUMPTIONS = [
    "oracle: Liang-Barsky clipping of the closed segment against the closed box in exact rational arithmetic "
    "(fractions.Fraction; vectorised int64 cross-multiplication for the lattice, cross-checked against the Fraction "
    "version at start-up)",
    "float cases are compared only when the exact answer is the same for the box grown and shrunk by 1e-9 on every "
    "side (a box thinner than 2e-9 shrinks to the empty set, i.e. 'free'); such undecided cases are counted as skipped",
    "on the integer lattice every intermediate of the code under test is a dyadic rational of magnitude < 2^10, so "
    "its float arithmetic is exact and equality with the rational decision is demanded without tolerance",
    "boxes are registered as (min corner, max corner) with lo <= hi per axis, as addObstruction documents",
]
SHARDS = {"quick": 4, "thorough": 16}

EPS = Fraction(1, 10 ** 9)

# ------------------------------------------------------------------------------------------------
# library access
# ------------------------------------------------------------------------------------------------

_lib = {}


def lib():
    if not _lib:
        from basic_robotics.general import tm
        from basic_robotics.path_planning import PathNode, RRTStar
        _lib.update(tm=tm, PathNode=PathNode, RRTStar=RRTStar)
    return _lib


def warm():
    L = lib()
    r = L["RRTStar"]()
    r.addObstruction([0, 0, 0], [1, 1, 1])
    r.obstruction(L["PathNode"](L["tm"]([0.5, 0.5, 0.5, 0, 0, 0])), L["PathNode"](L["tm"]([2.0, 2, 2, 0.1, 0.2, 0.3])))


def make_node(p, rot=(0.0, 0.0, 0.0)):
    L = lib()
    return L["PathNode"](L["tm"]([p[0], p[1], p[2], rot[0], rot[1], rot[2]]))


def make_planner(boxes, reg="list", r=None):
    """One fresh planner (or more boxes on the planner given), obstructions registered through addObstruction only."""
    L = lib()
    if r is None:
        r = L["RRTStar"]()
    for lo, hi in boxes:
        lo = [x for x in lo]
        hi = [x for x in hi]
        if reg == "tm":
            sut(r.addObstruction, L["tm"]([lo[0], lo[1], lo[2], 0, 0, 0]), L["tm"]([hi[0], hi[1], hi[2], 0, 0, 0]))
        else:
            sut(r.addObstruction, lo, hi)
    return r


# ------------------------------------------------------------------------------------------------
# oracle 1: Liang-Barsky in Fractions (reference)
# ------------------------------------------------------------------------------------------------

def _fr(x):
    if isinstance(x, Fraction):
        return x
    if isinstance(x, (int, np.integer)):
        return Fraction(int(x))
    return Fraction(float(x))          # exact: every finite float is a rational


def lb_fraction(p, q, lo, hi, strict=False):
    """Does {p + t (q-p), 0<=t<=1} meet the box?  strict=False: closed box [lo, hi];
    strict=True: open box (lo, hi) -- used only to classify contact.  Exact."""
    p = [_fr(v) for v in p]
    q = [_fr(v) for v in q]
    lo = [_fr(v) for v in lo]
    hi = [_fr(v) for v in hi]
    t0, t1 = Fraction(0), Fraction(1)       # closed parameter interval of the segment
    n0, n1 = None, None                     # open-slab entry / exit (strict mode)
    for i in range(3):
        if lo[i] > hi[i]:
            return False                    # empty box
        d = q[i] - p[i]
        if d == 0:
            if strict:
                if not (lo[i] < p[i] < hi[i]):
                    return False
            elif p[i] < lo[i] or p[i] > hi[i]:
                return False
            continue
        ta = (lo[i] - p[i]) / d
        tb = (hi[i] - p[i]) / d
        if ta > tb:
            ta, tb = tb, ta
        if strict:
            n0 = ta if n0 is None else max(n0, ta)
            n1 = tb if n1 is None else min(n1, tb)
        else:
            t0 = max(t0, ta)
            t1 = min(t1, tb)
            if t0 > t1:
                return False
    if strict:
        if n0 is None:
            return True                     # a point strictly inside
        return n0 < n1 and n0 < 1 and n1 > 0
    return True


def decide_float(p, q, boxes):
    """Exact answers for the set of boxes grown and shrunk by 1e-9: (grown_any, shrunk_any, closed_any)."""
    grown = shrunk = closed = False
    for lo, hi in boxes:
        lo_f = [_fr(v) for v in lo]
        hi_f = [_fr(v) for v in hi]
        grown = grown or lb_fraction(p, q, [v - EPS for v in lo_f], [v + EPS for v in hi_f])
        shrunk = shrunk or lb_fraction(p, q, [v + EPS for v in lo_f], [v - EPS for v in hi_f])
        closed = closed or lb_fraction(p, q, lo_f, hi_f)
    return grown, shrunk, closed


# ------------------------------------------------------------------------------------------------
# oracle 2: the same decision, vectorised over the whole lattice in int64
# ------------------------------------------------------------------------------------------------

R_PT = 3
R_BOX = 2
_side = 2 * R_PT + 1
N_PT = _side ** 3                                   # 343
N_SEG = N_PT * N_PT                                 # 117 649
_iv = [(a, b) for a in range(-R_BOX, R_BOX + 1) for b in range(a, R_BOX + 1)]     # 15 intervals lo<=hi
N_BOX = len(_iv) ** 3                               # 3 375
N_PAIRS = N_SEG * N_BOX                             # 397 065 375
BIG = 10 ** 6

_lat = {}


def lattice():
    if not _lat:
        g = np.arange(-R_PT, R_PT + 1, dtype=np.int64)
        pts = np.stack(np.meshgrid(g, g, g, indexing="ij"), axis=-1).reshape(-1, 3)    # index = 49(x+3)+7(y+3)+(z+3)
        A = np.repeat(pts, N_PT, axis=0)            # segment s = a*343 + b
        B = np.tile(pts, (N_PT, 1))
        D = B - A
        sgn = np.sign(D)
        pat = ((sgn[:, 0] + 1) * 9 + (sgn[:, 1] + 1) * 3 + (sgn[:, 2] + 1)).astype(np.int64)   # 0..26
        nnz = np.count_nonzero(D, axis=1).astype(np.int64)
        _lat.update(pts=pts, A=A, B=B, D=D, pat=pat, nnz=nnz, A32=A.astype(np.int32), B32=B.astype(np.int32),
                    D32=D.astype(np.int32))
    return _lat


def box_at(bi):
    """bi in [0, 3375): (lo, hi) integer 3-tuples."""
    ix, r = divmod(int(bi), len(_iv) ** 2)
    iy, iz = divmod(r, len(_iv))
    lo = (_iv[ix][0], _iv[iy][0], _iv[iz][0])
    hi = (_iv[ix][1], _iv[iy][1], _iv[iz][1])
    return lo, hi


def point_at(pi):
    x, r = divmod(int(pi), _side * _side)
    y, z = divmod(r, _side)
    return (x - R_PT, y - R_PT, z - R_PT)


CONTACT = ["miss_slab", "miss_cross", "touch_endpoint", "touch_graze", "pierce", "one_in", "contained"]


def lb_lattice_vec(lo, hi, idx=None):
    """For one integer box: (hit_closed, contact_class) for all 117 649 lattice segments (or the subset `idx`), exactly.

    Entry/exit parameters of slab i are near_i/den_i and far_i/den_i with den_i = |D_i| > 0; a slab the segment is
    parallel to contributes (-BIG)/1 and BIG/1 when the segment lies inside it and rejects otherwise.  The segment
    meets the closed box iff  max(0, max_i near_i) <= min(1, min_j far_j), i.e. iff every pairwise comparison
    near_i <= far_j, near_i <= 1, 0 <= far_j holds; comparisons are cross-multiplied (all integers < 2^24, int32)."""
    Lt = lattice()
    A, B, D = Lt["A32"], Lt["B32"], Lt["D32"]
    if idx is not None:
        A, B, D = A[idx], B[idx], D[idx]
    lo = np.asarray(lo, dtype=np.int32)
    hi = np.asarray(hi, dtype=np.int32)
    n = len(A)
    c_le = np.ones(n, dtype=bool)       # closed: all pairwise conditions
    c_lt = np.ones(n, dtype=bool)       # open box: the strict versions
    near, far, den = [], [], []
    a_in = np.ones(n, dtype=bool)
    b_in = np.ones(n, dtype=bool)
    slab_miss = np.zeros(n, dtype=bool)
    for i in range(3):
        a, b, d = A[:, i], B[:, i], D[:, i]
        par = d == 0
        pos = d > 0
        a_lo = a - lo[i]                # >= 0 iff a on the inner side of the lower face
        hi_a = hi[i] - a
        ain_i = (a_lo >= 0) & (hi_a >= 0)
        a_in &= ain_i
        b_in &= (b >= lo[i]) & (b <= hi[i])
        slab_miss |= ((a < lo[i]) & (b < lo[i])) | ((a > hi[i]) & (b > hi[i]))
        c_le &= ~par | ain_i
        c_lt &= ~par | ((a_lo > 0) & (hi_a > 0))
        near.append(np.where(par, np.int32(-BIG), np.where(pos, -a_lo, -hi_a)))
        far.append(np.where(par, np.int32(BIG), np.where(pos, hi_a, a_lo)))
        den.append(np.where(par, np.int32(1), np.abs(d)))
    for i in range(3):
        c_le &= (near[i] <= den[i]) & (far[i] >= 0)        # near_i <= 1, far_i >= 0
        c_lt &= (near[i] < den[i]) & (far[i] > 0)
        for j in range(3):
            l = near[i] * den[j]
            r = far[j] * den[i]
            c_le &= l <= r
            c_lt &= l < r
    hit = c_le
    hit_open = c_lt
    cls = np.full(n, -1, dtype=np.int64)
    cls[slab_miss] = 0
    cls[~slab_miss & ~hit] = 1
    touch = hit & ~hit_open
    ends = a_in | b_in
    cls[touch & ends] = 2
    cls[touch & ~ends] = 3
    cls[hit_open & ~ends] = 4
    cls[hit_open & (a_in ^ b_in)] = 5
    cls[hit_open & a_in & b_in] = 6
    if np.any(cls < 0) or np.any(slab_miss & hit) or np.any(hit_open & ~hit):
        raise HarnessError("lattice oracle: inconsistent classification for box %s %s" % (lo, hi))
    return hit, cls


def classify_fraction(p, q, lo, hi):
    """Contact class by the Fraction oracle (used for single cases and for the start-up cross-check)."""
    hit = lb_fraction(p, q, lo, hi)
    slab_miss = any((p[i] < lo[i] and q[i] < lo[i]) or (p[i] > hi[i] and q[i] > hi[i]) for i in range(3))
    if slab_miss:
        return hit, 0
    if not hit:
        return hit, 1
    a_in = all(lo[i] <= p[i] <= hi[i] for i in range(3))
    b_in = all(lo[i] <= q[i] <= hi[i] for i in range(3))
    if not lb_fraction(p, q, lo, hi, strict=True):
        return hit, 2 if (a_in or b_in) else 3
    if a_in and b_in:
        return hit, 6
    return hit, 5 if (a_in or b_in) else 4


def crosscheck_oracles(seed, nboxes=12, nseg=250):
    """Vectorised int64 decision == Fraction Liang-Barsky, on a seeded sample plus every class of every sampled box."""
    rng = np.random.default_rng(seed)
    Lt = lattice()
    n = 0
    for bi in [0, N_BOX - 1, N_BOX // 2] + [int(x) for x in rng.integers(0, N_BOX, nboxes)]:
        lo, hi = box_at(bi)
        hit, cls = lb_lattice_vec(lo, hi)
        pick = set(int(x) for x in rng.integers(0, N_SEG, nseg))
        for c in range(len(CONTACT)):
            w = np.flatnonzero(cls == c)
            if len(w):
                pick.update(int(x) for x in rng.choice(w, min(6, len(w)), replace=False))
        for s in pick:
            p = tuple(int(v) for v in Lt["A"][s])
            q = tuple(int(v) for v in Lt["B"][s])
            h2, c2 = classify_fraction(p, q, lo, hi)
            if bool(hit[s]) != h2 or int(cls[s]) != c2:
                raise HarnessError("oracles disagree: box %s %s segment %s %s: vec (%s, %s) fraction (%s, %s)"
                                   % (lo, hi, p, q, bool(hit[s]), CONTACT[cls[s]], h2, CONTACT[c2]))
            n += 1
    return n


# ------------------------------------------------------------------------------------------------
# clause 1: lattice enumeration (bulk)
# ------------------------------------------------------------------------------------------------

def run_seed():
    """The runner does not hand the seed to run_range; recover it the way the runner resolves it."""
    av = sys.argv
    for i, a in enumerate(av):
        if a == "--seed" and i + 1 < len(av):
            return int(av[i + 1])
        if a.startswith("--seed="):
            return int(a.split("=", 1)[1])
    v = os.environ.get("VERIF_SEED", "0") or "0"
    try:
        return int(v)
    except ValueError:
        import hashlib
        return int(hashlib.sha1(v.encode()).hexdigest()[:8], 16)


def lattice_case(bi, s):
    Lt = lattice()
    lo, hi = box_at(bi)
    return {"p": [int(v) for v in Lt["A"][s]], "q": [int(v) for v in Lt["B"][s]],
            "boxes": [[list(lo), list(hi)]], "rot_p": [0.0, 0.0, 0.0], "rot_q": [0.0, 0.0, 0.0],
            "reg": "list", "exact": True}


def enum_size(tier):
    # quick: one unit per box (stratified sample of its segments); thorough: one unit per (box, first end point)
    return N_BOX if tier == "quick" else N_BOX * N_PT


QUICK_PER_STRATUM = 3
QUICK_CANDIDATES = 12000


def _simplicity(bi, s):
    Lt = lattice()
    lo, hi = box_at(bi)
    return (int(Lt["nnz"][s]), int(np.abs(Lt["A"][s]).sum() + np.abs(Lt["B"][s]).sum()),
            sum(h - l for l, h in zip(lo, hi)), sum(abs(v) for v in lo + hi), bi, s)


def run_range(lo_u, hi_u, tier, stats):
    seed = run_seed()
    stats.extra["oracle_crosscheck_cases"] = crosscheck_oracles(seed * 7919 + lo_u)
    Lt = lattice()
    nodes = [make_node(point_at(i)) for i in range(N_PT)]
    lab = np.zeros((4, len(CONTACT)), dtype=np.int64)
    degen = np.zeros(4, dtype=np.int64)
    failures = []
    evals = nontriv = 0
    cur_box = None
    planner = hit = cls = obs = None
    nnz = Lt["nnz"]
    u = lo_u
    while u < hi_u:
        bi = u if tier == "quick" else u // N_PT
        if bi != cur_box:
            if failures:
                break                                    # finish the box in which the first failure showed up
            cur_box = bi
            blo, bhi = box_at(bi)
            planner = make_planner([(list(blo), list(bhi))])
            obs = planner.obstruction
            if tier != "quick":
                hit, cls = lb_lattice_vec(blo, bhi)
            ndeg = sum(1 for l, h in zip(blo, bhi) if l == h)
            rng = np.random.default_rng([seed, bi, 15])      # per box: the sample does not depend on the sharding
        if tier == "quick":
            # seeded candidate subset of this box's segments (independent of the sharding), classified exactly,
            # then QUICK_PER_STRATUM segments from every (direction sign pattern x contact class) stratum present
            cand = rng.integers(0, N_SEG, QUICK_CANDIDATES)
            hit_c, cls_c = lb_lattice_vec(blo, bhi, cand)
            strat = Lt["pat"][cand] * len(CONTACT) + cls_c
            so = np.argsort(strat, kind="stable")
            ss = strat[so]
            first = np.flatnonzero(np.r_[True, ss[1:] != ss[:-1]])
            sel = np.concatenate([so[f:f + QUICK_PER_STRATUM][ss[f:f + QUICK_PER_STRATUM] == ss[f]] for f in first])
            _, keep = np.unique(cand[sel], return_index=True)
            sel = sel[np.sort(keep)]
            idx = cand[sel]
            exp = hit_c[sel]
            c = cls_c[sel]
            got = np.fromiter((bool(sut(obs, nodes[s // N_PT], nodes[s % N_PT])) for s in idx.tolist()),
                              dtype=bool, count=len(idx))
        else:
            a = u % N_PT
            na = nodes[a]
            got = np.fromiter((bool(sut(obs, na, nb)) for nb in nodes), dtype=bool, count=N_PT)
            idx = np.arange(a * N_PT, (a + 1) * N_PT)
            exp = hit[idx]
            c = cls[idx]
        evals += len(idx)
        nontriv += int(np.count_nonzero((c != 0) | (nnz[idx] == 0)))
        np.add.at(lab, (nnz[idx], c), 1)
        degen[ndeg] += len(idx)
        bad = np.flatnonzero(got != exp)
        for k in bad[:50].tolist():
            failures.append((bi, int(idx[k]), bool(got[k]), bool(exp[k]), int(c[k])))
        if len(stats.samples) < 2 and len(idx):
            k = int(rng.integers(0, len(idx)))
            stats.samples.append({"case": lattice_case(bi, int(idx[k])),
                                  "labels": [CONTACT[int(c[k])]], "notes": {"oracle": bool(exp[k]), "library": bool(got[k])}})
        u += 1
    stats.evals += evals
    stats.nontrivial_bulk += nontriv
    for d in range(4):
        for k, name in enumerate(CONTACT):
            if lab[d, k]:
                stats.labels["dir_nnz=%d:%s" % (d, name)] += int(lab[d, k])
        if degen[d]:
            stats.labels["box_degenerate_axes=%d" % d] += int(degen[d])
    stats.extra["domain"] = "%d ordered segments x %d boxes = %d pairs" % (N_SEG, N_BOX, N_PAIRS)
    if failures:
        bi, s, g, e, c = min(failures, key=lambda f: _simplicity(f[0], f[1]))
        case = lattice_case(bi, s)
        stats.failure = (case, "obstruction() says %s, exact Liang-Barsky says %s (%s); %d disagreeing pairs seen in this "
                         "shard before stopping" % (g, e, CONTACT[c], len(failures)))
        stats.exhaustive = False
    else:
        # complete only in the thorough tier (every unit of every shard evaluated, no sampling)
        stats.exhaustive = (tier == "thorough")


# ------------------------------------------------------------------------------------------------
# single-case check (replay of enumeration failures, float pairs, box sets)
# ------------------------------------------------------------------------------------------------

def _dir_class(p, q):
    return "dir_nnz=%d" % sum(1 for i in range(3) if p[i] != q[i])


def check_case(case, ctx):
    p, q = list(case["p"]), list(case["q"])
    boxes = [(list(b[0]), list(b[1])) for b in case["boxes"]]
    exact = bool(case["exact"])
    for lo, hi in boxes:
        if any(l > h for l, h in zip(lo, hi)):
            ctx.skip("box with lo > hi (outside the registered (min corner, max corner) form)")
    grown, shrunk, closed = decide_float(p, q, boxes)
    if exact:
        expected = closed
    else:
        if grown != shrunk:
            ctx.skip("exact answer changes when the boxes are grown/shrunk by 1e-9 (gen=%s)" % case.get("kind", "?"))
        expected = grown
    # classification (labels, non-trivial rule) from the exact closed decision
    nt = all(p[i] == q[i] for i in range(3))
    contact = "no_boxes"
    rank = -1
    order = [0, 1, 4, 5, 6, 3, 2]       # report the most delicate class present in the set
    for lo, hi in boxes:
        _, c = classify_fraction([_fr(v) for v in p], [_fr(v) for v in q], [_fr(v) for v in lo], [_fr(v) for v in hi])
        if c != 0:
            nt = True
        if order.index(c) > rank:
            rank = order.index(c)
            contact = CONTACT[c]
    ctx.label("%s:%s" % (_dir_class(p, q), contact))
    if len(boxes) > 1:
        nh = sum(1 for lo, hi in boxes if lb_fraction(p, q, lo, hi))
        ctx.label("set: %s of the boxes met" % ("none" if nh == 0 else "exactly one" if nh == 1 else "several"))
    ctx.label("nboxes=%d" % len(boxes))
    ctx.label("exact_lattice" if exact else "float_eps_robust")
    if "kind" in case:
        ctx.label("gen=%s" % case["kind"])
    ctx.nontrivial(nt)
    na = make_node(p, case["rot_p"])
    nb = make_node(q, case["rot_q"])
    k = case.get("asked_after")
    if k is not None and 0 <= int(k) < len(boxes):
        # registration history: the same question is asked once while only the first k boxes are registered; the
        # answer then is about those k boxes, the answer after the remaining registrations about all of them
        k = int(k)
        ctx.label("history: asked after %s of the registrations, then again after all" % ("none" if k == 0 else "some"))
        planner = make_planner(boxes[:k], case["reg"])
        g0, s0, c0 = decide_float(p, q, boxes[:k])
        early = sut(planner.obstruction, na, nb)
        if (exact or g0 == s0) and bool(early) != (c0 if exact else g0):
            raise Violation("obstruction(p, q) with the first %d boxes registered says %s, exact Liang-Barsky says %s "
                            "(p=%s q=%s boxes=%s)" % (k, bool(early), c0 if exact else g0, p, q, boxes[:k]))
        planner = make_planner(boxes[k:], case["reg"], planner)
    else:
        planner = make_planner(boxes, case["reg"])
    if case.get("min_dist") is not None:
        # the planner's minimum connection distance is a tree-building setting; the obstruction answer is about the
        # segment and the boxes only
        planner.minimum_distance = float(case["min_dist"])
        ctx.label("minimum_distance=%g" % float(case["min_dist"]))
    if case.get("dmode") is not None:
        # planner configuration that has nothing to do with the obstruction test (distance mode of the tree
        # builder): the answer must not depend on it
        planner.dmode = int(case["dmode"])
        ctx.label("dmode=%d" % int(case["dmode"]))
    if len(planner.obstructions) != len(boxes):
        raise Violation("addObstruction registered %d obstructions for %d boxes" % (len(planner.obstructions), len(boxes)))
    got = sut(planner.obstruction, na, nb)
    if bool(got) != expected:
        raise Violation("obstruction(p, q) says %s, exact Liang-Barsky says %s (p=%s q=%s boxes=%s)"
                        % (bool(got), expected, p, q, boxes))
    ctx.note("expected", expected)
    if case.get("also_reversed", False):
        got2 = sut(planner.obstruction, nb, na)
        if bool(got2) != expected:
            raise Violation("obstruction(q, p) says %s, exact Liang-Barsky says %s (p=%s q=%s boxes=%s)"
                            % (bool(got2), expected, p, q, boxes))


# ------------------------------------------------------------------------------------------------
# generators: float pairs and box sets
# ------------------------------------------------------------------------------------------------

LIM = 10.0


def _clip(v):
    return float(min(LIM, max(-LIM, v)))


def _coord():
    return st.one_of(G.floats(-LIM, LIM), st.integers(-20, 20).map(lambda k: k / 2.0), G.floats(-1.0, 1.0))


@st.composite
def float_boxes(draw):
    """Mostly regular boxes (every side >= 1e-3, so that hits stay decided under the 1e-9 grow/shrink rule); some
    with thin sides (1e-8..1e-2, still decidable); a few degenerate / thinner than 2e-9 (only misses are decidable)."""
    shape = draw(st.sampled_from(["regular"] * 7 + ["thin", "thin", "degenerate"]))
    lo, hi = [], []
    special = draw(st.integers(1, 7)) if shape != "regular" else 0       # bit mask of the special axes
    for i in range(3):
        a = draw(_coord())
        if special >> i & 1:
            if shape == "thin":
                w = draw(G.log_uniform(1e-8, 1e-2))
            else:
                w = draw(st.one_of(st.just(0.0), G.log_uniform(1e-12, 1e-9)))
        else:
            w = draw(st.one_of(G.floats(1e-3, 20.0), G.floats(0.05, 4.0), st.integers(1, 8).map(lambda k: k / 2.0)))
        if a + w > LIM:
            a = LIM - w if LIM - w >= -LIM else -LIM
        b = _clip(a + w)
        lo.append(float(a))
        hi.append(float(b))
    return [lo, hi]


_OFF = st.one_of(*([G.signed_log_uniform(1e-8, 1e-2)] * 6 + [G.signed_log_uniform(3e-9, 1e-7)] * 2
                   + [st.just(0.0), G.signed_log_uniform(1e-12, 1e-9)]))


@st.composite
def segments_near(draw, box):
    """A segment placed relative to `box`: through a point on/near a face, edge or corner; grazing an edge with a
    direction in the tangent plane; end point on the boundary; contained; or unrelated."""
    lo, hi = box
    kind = draw(st.sampled_from(["random", "through", "through", "edge_graze", "edge_graze", "endpoint_on",
                                 "contained", "axis_parallel", "zero_length", "short_across", "short_across"]))

    def anchor():
        q, where = [], []
        for i in range(3):
            w = draw(st.sampled_from(["lo", "hi", "in", "in"]))
            where.append(w)
            q.append(lo[i] if w == "lo" else hi[i] if w == "hi" else lo[i] + (hi[i] - lo[i]) * draw(st.one_of(G.floats(0.01, 0.99), G.floats(0.0, 1.0))))
        return q, where

    if kind == "random":
        p = [draw(_coord()) for _ in range(3)]
        q = [draw(_coord()) for _ in range(3)]
    elif kind == "zero_length":
        a, where = anchor()
        p = [_clip(a[i] + (draw(_OFF) if where[i] != "in" else 0.0)) for i in range(3)]
        q = list(p)
    elif kind == "short_across":
        # a short segment (1e-4 .. 0.2 long) straddling the boundary at a point of a face, edge or corner: the two
        # parts on either side of the boundary point have independent lengths, so the midpoint is outside as often
        # as inside
        a, where = anchor()
        if all(w == "in" for w in where):
            where[draw(st.integers(0, 2))] = "hi"
            a = [hi[i] if where[i] == "hi" else a[i] for i in range(3)]
        d = [draw(G.floats(-1.0, 1.0)) for _ in range(3)]
        for i in range(3):
            if where[i] != "in":      # leave the box along every axis on whose boundary the anchor lies
                d[i] = (1.0 if where[i] == "hi" else -1.0) * draw(G.floats(0.2, 1.0))
        s = draw(G.log_uniform(1e-4, 0.1))
        t = draw(G.log_uniform(1e-4, 0.1))
        p = [_clip(a[i] + s * d[i]) for i in range(3)]
        q = [_clip(a[i] - t * d[i]) for i in range(3)]
    elif kind == "contained":
        p, _ = anchor()
        q, _ = anchor()
    elif kind == "endpoint_on":
        a, where = anchor()
        p = [_clip(a[i] + (draw(_OFF) if where[i] != "in" else 0.0)) for i in range(3)]
        q = [draw(_coord()) for _ in range(3)]
    elif kind == "axis_parallel":
        a, where = anchor()
        ax = draw(st.integers(0, 2))
        p = [_clip(a[i] + (draw(_OFF) if where[i] != "in" else 0.0)) for i in range(3)]
        q = list(p)
        p[ax] = draw(_coord())
        q[ax] = draw(_coord())
    elif kind == "through":
        a, where = anchor()
        a = [a[i] + (draw(_OFF) if where[i] != "in" else 0.0) for i in range(3)]
        d = [draw(G.floats(-1.0, 1.0)) for _ in range(3)]
        s = draw(st.one_of(st.just(0.0), G.floats(0.0, 12.0)))
        t = draw(st.one_of(st.just(0.0), G.floats(0.0, 12.0)))
        p = [_clip(a[i] - s * d[i]) for i in range(3)]
        q = [_clip(a[i] + t * d[i]) for i in range(3)]
    else:  # edge_graze: the edge parallel to axis k at the (sj, sl) corner of the other two axes
        k = draw(st.integers(0, 2))
        j, l = [i for i in range(3) if i != k]
        sj = draw(st.sampled_from([-1, 1]))
        sl = draw(st.sampled_from([-1, 1]))
        off = draw(_OFF)
        a = [0.0, 0.0, 0.0]
        a[k] = lo[k] + (hi[k] - lo[k]) * draw(G.floats(-0.2, 1.2))
        a[j] = (hi[j] if sj > 0 else lo[j]) + sj * off
        a[l] = (hi[l] if sl > 0 else lo[l]) + sl * off
        # direction in the plane spanned by e_k and the tangent (sj e_j - sl e_l) rotated by a small angle
        al = draw(G.floats(-1.0, 1.0))
        be = draw(G.floats(-1.0, 1.0))
        tilt = draw(st.one_of(st.just(1.0), G.floats(0.2, 5.0)))
        d = [0.0, 0.0, 0.0]
        d[k] = al
        d[j] = be * sj * tilt
        d[l] = -be * sl
        s = draw(G.floats(0.0, 12.0))
        t = draw(G.floats(0.0, 12.0))
        p = [_clip(a[i] - s * d[i]) for i in range(3)]
        q = [_clip(a[i] + t * d[i]) for i in range(3)]
    return [float(v) for v in p], [float(v) for v in q], kind


def _rot():
    return st.one_of(st.just([0.0, 0.0, 0.0]),
                     st.lists(G.floats(-2 * np.pi, 2 * np.pi), min_size=3, max_size=3))


@st.composite
def float_pair_cases(draw):
    box = draw(float_boxes())
    p, q, kind = draw(segments_near(box))
    return {"p": p, "q": q, "boxes": [box], "rot_p": draw(_rot()), "rot_q": draw(_rot()),
            "reg": draw(st.sampled_from(["list", "list", "tm"])), "exact": False, "kind": kind, "also_reversed": True,
            "dmode": draw(st.sampled_from([None, 0, 1, 1])),
            "min_dist": draw(st.sampled_from([None, None, 0.0, 0.1, 1.5, 25.0]))}


@st.composite
def lattice_boxes(draw, half=False):
    sc = 2 if half else 1
    lo, hi = [], []
    for _ in range(3):
        a = draw(st.integers(-R_BOX * sc, R_BOX * sc))
        b = draw(st.integers(a, R_BOX * sc))
        lo.append(a / sc if half else a)
        hi.append(b / sc if half else b)
    return [lo, hi]


@st.composite
def box_set_cases(draw):
    mode = draw(st.sampled_from(["lattice", "lattice", "half_lattice", "float", "float"]))
    n = draw(st.integers(0, 6))
    if mode == "float":
        boxes = [draw(float_boxes()) for _ in range(n)]
        if boxes and draw(st.booleans()):
            p, q, kind = draw(segments_near(boxes[draw(st.integers(0, n - 1))]))
        else:
            p = [draw(_coord()) for _ in range(3)]
            q = [draw(_coord()) for _ in range(3)]
            kind = "random"
        exact = False
    else:
        half = mode == "half_lattice"
        sc = 2 if half else 1
        boxes = [draw(lattice_boxes(half)) for _ in range(n)]
        p = [draw(st.integers(-R_PT * sc, R_PT * sc)) for _ in range(3)]
        q = [draw(st.integers(-R_PT * sc, R_PT * sc)) for _ in range(3)]
        if draw(st.integers(0, 5)) == 0:
            q = list(p)
        if half:
            p = [v / 2.0 for v in p]
            q = [v / 2.0 for v in q]
        kind = mode
        # exact equality (touching included) is demanded on the integer lattice only, as the property quantifies;
        # half-integer cases fall under the float rule (compared when the answer is robust to +-1e-9)
        exact = not half
    return {"p": p, "q": q, "boxes": boxes, "rot_p": draw(_rot()), "rot_q": draw(_rot()),
            "reg": draw(st.sampled_from(["list", "list", "tm"])), "exact": exact, "kind": kind, "also_reversed": True,
            "dmode": draw(st.sampled_from([None, 0, 1, 1])),
            "min_dist": draw(st.sampled_from([None, None, 0.0, 0.1, 1.5, 25.0])),
            "asked_after": draw(st.one_of(st.none(), st.integers(0, max(0, n - 1)))) if n else None}


CLAUSES = [
    Clause("lattice_enumeration", check_case, kind="enum", size=enum_size, run_range=run_range,
           doc="all ordered lattice segments x all integer boxes against the exact rational decision"),
    Clause("float_pairs", check_case, float_pair_cases(), 3000, 40000,
           doc="float segments / single float boxes in [-10,10]^3, compared when the answer is 1e-9-robust"),
    Clause("box_sets", check_case, box_set_cases(), 2000, 30000,
           doc="sets of 0..6 boxes: obstructed iff any box is met"),
]
